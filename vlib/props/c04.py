"""C04 - button and blinds move by the dead-button rule (seat-manager layer)."""
import json

from ..flow import standard_flow

CLAUSES = {1: "refusal (refused although two seated-in players have chips, or not refused with fewer)",
           2: "a refused rotation moved a button seat or an occupant", 3: "occupants changed",
           4: "big blind is not the next seated-in player with chips clockwise / not dealt in",
           5: "ring: sb' = old bb, dealer' = old sb (nearest live seat after heads-up), three distinct",
           6: "heads-up: dealer = small blind = the other player", 7: "short deck: dealer to the next dealt-in seat",
           8: "initial positions"}


def signature(case, step):
    clause, sig = step % 100, step // 100
    if clause == 5 and (sig & 1):
        return "c04_sig_bb_reaches_old_sb"
    if clause == 1 and case["res"] == "err" and (sig & 2):
        return "c04_sig_refused_live_waiting"
    return None


def describe(case, step, code):
    d = {"code": {2: "model-vs-implementation", 3: "C04 specification monitor", 4: "C03 seat-level monitor"}.get(code, code),
         "transition": {k: case[k] for k in ("pre", "op", "res", "post")}}
    if code == 3:
        d["failing_clause"] = CLAUSES.get(step % 100, step % 100)
    return d


def stats(cases):
    kinds, maxes, rules, res = {}, {}, {}, {}
    rot = {"ok": 0, "err": 0}
    for c in cases:
        kinds[c["op"]["kind"]] = kinds.get(c["op"]["kind"], 0) + 1
        maxes[c["pre"]["max"]] = maxes.get(c["pre"]["max"], 0) + 1
        rules[c["pre"]["rule"]] = rules.get(c["pre"]["rule"], 0) + 1
        res[c["res"]] = res.get(c["res"], 0) + 1
        if c["op"]["kind"] == "rotate" and c["pre"]["init"]:
            rot[c["res"]] += 1
    return {"op_kinds": kinds, "seat_counts": maxes, "rules": rules, "results": res, "rotations_on_initialised_tables": rot,
            "by_plan": {p: sum(1 for c in cases if c.get("_plan") == p) for p in sorted({c.get("_plan") for c in cases if c.get("_plan")})}}


PLANS = {
    "quick": [("all2d", "all:2:default", 0, None, 0), ("all3d", "all:3:default", 0, None, 0), ("all3s", "all:3:short_deck", 0, None, 0),
              ("bfs2d", "bfs:2:default", 0, None, 0), ("bfs3d", "bfs:3:default:500", 0, None, 0),
              ("rand", "rand", 300, 300, None)],
    "thorough": [("all2d", "all:2:default", 0, None, 0), ("all3d", "all:3:default", 0, None, 0), ("all3s", "all:3:short_deck", 0, None, 0),
                 ("all4s", "all:4:short_deck", 0, None, 0), ("all4d", "all:4:default", 0, None, 0),
                 ("bfs2d", "bfs:2:default", 0, None, 0), ("bfs3d", "bfs:3:default", 0, None, 0),
                 ("bfs3s", "bfs:3:short_deck", 0, None, 0), ("rand", "rand", 8000, 500, None)],
}


def relevant(case, code, step):
    """C04's slice: the C04 monitor on reachable states; model = implementation on rotations and initialisations."""
    if code == 3:
        return not case.get("synthetic")
    if code == 2:
        return case["op"]["kind"] in ("rotate", "init")
    return False


def run(res, replay=None):
    return standard_flow(
        res, hx="sm", corr="SM_run", n=0, replay=replay, plans=None if replay else PLANS[res.tier],
        signature=signature, describe=describe, stats=stats, relevant=relevant,
        rule="transitions (state, op, result, state') of the real seat manager: breadth-first over every state reachable through the API "
             "for 2 and 3 seats (state cap in the quick tier), plus random API histories on 2..10 seats and both rules; "
             "distinct = distinct (pre-state, op); non-trivial = rotation or initialisation on a table with at least two occupants",
        nontrivial=lambda c: c["op"]["kind"] in ("rotate", "init") and sum(1 for s in c["pre"]["seats"] if s) >= 2,
        key=lambda c: json.dumps([c["pre"], c["op"]], sort_keys=True),
        assumptions=["random seat draws and the random first big blind enter the model as observed oracle values",
                     "Go map iteration order only selects which of several applicable errors is returned; ok/error is compared"])


def replay(res, path):
    return run(res, replay=path)

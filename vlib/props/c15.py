"""C15 - the published action deadline matches the turn."""
from .handbase import run_hand, replay_hand

CL = {(6, 1): "a betting round asked an unmoved player for a wager action but the deadline is not request time + action time",
      (6, 2): "the deadline was not cleared when the betting round closed / between hands",
      (6, 3): "a deadline extension did not move the deadline by exactly the requested seconds (or returned something else)"}


def run(res, replay=None):
    return run_hand(res, (6,), CL, replay=replay,
                    extra_assumptions=["deadlines are compared at one-second resolution: request time is bracketed by the clock before the call and at quiescence"])


def replay(res, path):
    return replay_hand(res, path, run)

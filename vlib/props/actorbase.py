"""Shared by C18, C19, C20: the actor harness (hx actor / Corr/Actor_run.v)."""
import json

from ..flow import standard_flow

INPUT = ("index", "seed", "kind", "max", "players", "ante", "dealer_blind", "sb", "bb", "hands")


def unit(c):
    return {k: c[k] for k in INPUT if k in c}


def stats(cases):
    kinds, moves, statuses, tstat = {}, {}, {}, {}
    bot_silent = bot_moved = stale = player_obs = obs_sys = obs_non = bots_tables = bots_hands = bots_calls = 0
    for c in cases:
        if c["kind"] == "bots":
            bots_tables += 1
            bots_hands += c.get("hands_settled", 0)
            bots_calls += c.get("bot_calls", 0)
        for o in c.get("observations") or []:
            kinds[o["kind"]] = kinds.get(o["kind"], 0) + 1
            tstat[o.get("table_status", "")] = tstat.get(o.get("table_status", ""), 0) + 1
            if o["kind"] == "bot":
                if o["calls"]:
                    bot_moved += 1
                else:
                    bot_silent += 1
                if o["b"]["has_game"] and not o["b"]["new_game"] and not o["b"]["fresher"]:
                    stale += 1
            if o["kind"] == "player":
                player_obs += 1
                statuses[o["status"]] = statuses.get(o["status"], 0) + 1
            if o["kind"] == "observer":
                if o.get("system"):
                    obs_sys += 1
                else:
                    obs_non += 1
            for k in o.get("calls") or []:
                moves[k["action"]] = moves.get(k["action"], 0) + 1
    return {"observations_by_actor": kinds, "table_status_at_observation": tstat, "bot_views_answered": bot_moved, "bot_views_silent": bot_silent,
            "stale_views_shown_to_bots": stale, "player_runner_requests": player_obs, "player_runner_status": statuses, "moves_recorded": moves,
            "observer_views_system": obs_sys, "observer_views_filtered": obs_non, "bots_only_tables": bots_tables, "bots_only_hands_settled": bots_hands,
            "bots_only_calls": bots_calls,
            "bot_views_at_sizing_edges": sum(1 for c in cases for o in c.get("observations") or [] if o.get("edge_of_sizing_rules"))}


def run_actor(res, codes, clause_names, model_steps, replay=None, plans=None, extra_assumptions=()):
    def relevant(case, c, step):
        if c == 2:
            return step % 10 in model_steps
        if c == 1:
            return 3 in codes
        return c in codes

    def describe(case, step, c):
        idx = step // 10
        obs = case.get("observations") or []
        d = {"code": {2: "model-vs-implementation"}.get(c, "monitor"), "history_index": case["index"], "config": unit(case),
             "failing_clause": clause_names.get((c, step % 10), step % 10)}
        if idx < len(obs):
            d["observation"] = obs[idx]
        d["bots_only_summary"] = {k: case.get(k) for k in ("hands_settled", "bot_calls", "bot_calls_refused", "note")}
        return d

    q = res.tier == "quick"
    return standard_flow(
        res, hx="actor", corr="Actor_run", n=0 if replay else (28 if q else 600), shard=7 if q else 60, replay=replay, plans=None if replay else plans,
        signature=lambda c, s: None, describe=describe, stats=stats, relevant=relevant, unit=unit,
        rule="actors wired as in production (actor + runner + the real tableEngineAdapter) whose action methods record instead of forwarding, shown EVERY table "
             "update of hands the harness plays (2..5 players, stacks from one chip, ante / no-SB / dealer-blind structures), old views re-delivered; every "
             "recorded call is tried on a copy of the hand state with the real hand engine; player runners in running / idle / suspended status with a 1 s "
             "thinking time, their calls timed; four actors attached in a random order per update for the copy check; every fourth case is a table played by "
             "bots only through the real engine; distinct = distinct sequences of (actor, reaction); non-trivial = a bot bet or raised and an observer was filtered",
        nontrivial=lambda c: c["kind"] == "bots" or any(k["action"] in ("bet", "raise") for o in c.get("observations") or [] for k in o.get("calls") or []),
        key=lambda c: json.dumps([c["kind"], c.get("hands_settled"), [(o["kind"], [k["action"] for k in o.get("calls") or []]) for o in c.get("observations") or []]]),
        assumptions=["pokerface v0.1.10's allowed-action and raise rules are hand-written into the model (pf_available / pf_accepts) and compared with the running "
                     "hand engine on every recorded call", "the bot's random draws (math/rand) are not controlled: an observed move must be one the model can make for SOME draw"]
        + list(extra_assumptions))


def replay_actor(res, path, run):
    data = json.load(open(path))
    tmp = path + ".case.json"
    json.dump([unit(data["replay_case"])], open(tmp, "w"))
    return run(res, replay=tmp)

"""C16 - concurrent callers see one-at-a-time behaviour."""
import json

from ..flow import standard_flow

CL = {1: "after a burst of membership operations the table's bookkeeping (C03 seat_inv) is broken",
      2: "a player was lost, duplicated or appeared from nowhere in a burst of membership operations",
      3: "no one-at-a-time order of the burst's operations explains the results the callers got and the table afterwards",
      4: "the seat manager double-booked (a player on two seats, or an accepted seat request not honoured)",
      5: "chips / seats not accounted for after a burst (an accepted reservation or assignment lost, or credited to somebody else)",
      6: "two hand-engine calls were made on the same hand state: the chain of hand states forked",
      7: "the actions accepted in one burst are not exactly those applied for the player whose turn it was",
      8: "chips not conserved over hands played with simultaneous submissions",
      9: "harness recorded a different number of results than operations"}
INPUT = ("index", "seed", "kind", "max", "goroutines", "slow_backend")


def unit(c):
    return {k: c[k] for k in INPUT if k in c}


def stats(cases):
    kinds, sizes = {}, {"2-6": 0, "7-16": 0, "17+": 0}
    ops = turns = accepted = 0
    for c in cases:
        kinds[c["kind"]] = kinds.get(c["kind"], 0) + 1
        n = c["goroutines"]
        sizes["2-6" if n <= 6 else "7-16" if n <= 16 else "17+"] += 1
        if c.get("members"):
            ops += len(c["members"]["ops"])
        if c.get("seats"):
            ops += len(c["seats"]["ops"])
        if c.get("actions"):
            turns += len(c["actions"]["turns"])
            accepted += sum(1 for t in c["actions"]["turns"] for s in t["subs"] if s["ok"])
    return {"bursts_by_kind": kinds, "burst_sizes": sizes, "concurrent_operations": ops, "turns_with_simultaneous_submissions": turns,
            "submissions_accepted": accepted}


def run(res, replay=None):
    q = res.tier == "quick"

    def describe(case, step, c):
        d = {"code": "C16 monitor", "history_index": case["index"], "config": unit(case), "failing_clause": CL.get(step % 10, step % 10)}
        if case.get("actions"):
            d["failing_turn"] = step // 10
            d["turn"] = case["actions"]["turns"][step // 10] if step // 10 < len(case["actions"]["turns"]) else None
        else:
            d["burst"] = case.get("members") or case.get("seats")
        return d

    plans = [("gen", None, 160 if q else 4000, 40 if q else 400, None), ("big", "big", 40 if q else 1500, 40 if q else 300, None),
             # a full table, one caller swapping a member by batch update while the others reserve for newcomers, up to 150 rounds per table
             ("swap", "swap", 24 if q else 600, 12 if q else 100, None),
             # membership calls released together with the signals that open the next hand (the hand is opened from a copy of the table)
             ("open", "open", 16 if q else 400, 8 if q else 100, None)]
    return standard_flow(
        res, hx="conc", corr="Conc_run", n=0, replay=replay, plans=None if replay else plans,
        signature=lambda c, s: None, describe=describe, stats=stats, unit=unit,
        rule="bursts released together from a barrier on the real engine: (members) PlayerReserve incl. re-buys, duplicate reservations and explicit "
             "conflicting seats / PlayersLeave / UpdateTablePlayers, also released together with the signals that open the next hand; (seats) RandomAssignSeats / AssignSeats on conflicting seats / RemoveSeats on a bare "
             "seat manager; (actions) at every turn of real hands every participant submits an action at once, the player to act twice, against a backend "
             "that may take 1-3 ms per call; bursts of 2..6 callers are explained by trying every order on the model, larger ones (up to 47) by a search over "
             "the accepted operations (refused ones are placed where the model refuses them) when at most 7 were accepted, else by accounting; "
             "distinct = distinct (kind, operations, results); non-trivial = at least one accepted and one refused call",
        nontrivial=lambda c: len({json.dumps(x) for x in ((c.get("members") or c.get("seats") or {}).get("res") or [s["ok"] for t in (c.get("actions") or {}).get("turns", []) for s in t["subs"]])}) > 1,
        key=lambda c: json.dumps([c["kind"], (c.get("members") or {}).get("ops"), (c.get("members") or {}).get("res"), (c.get("seats") or {}).get("ops"), (c.get("seats") or {}).get("res"),
                                  [[(s["hand_index"], s["action"], s["ok"]) for s in t["subs"]] for t in (c.get("actions") or {}).get("turns", [])]]),
        assumptions=["the Go scheduler decides the interleavings; a burst explores one of them per run (the theorem covers all of them for locking callers)",
                     "every access of a listed method to the shared state happens between its Lock and its deferred Unlock (checked syntactically by the translator: "
                     "first two statements, no other Unlock)",
                     "PlayerJoin, PlayerRedeemChips, PlayerExtendActionDeadline, UpdateBlind, StartTableGame and the hand wrapper's own Next call take no lock: they are "
                     "outside the property's list and outside the theorem (an action that arrives after a round-closing action races with the wrapper's Next; observed "
                     "refused by the hand engine, see DESIGN.md)"])


def replay(res, path):
    data = json.load(open(path))
    tmp = path + ".case.json"
    json.dump([unit(data["replay_case"])], open(tmp, "w"))
    return run(res, replay=tmp)

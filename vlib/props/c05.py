"""C05 - exactly the eligible players are dealt in; newcomers wait for the blind."""
from .openbase import run_open, replay_open

CL = {1: "a hand opened with fewer than two dealt in", 2: "a player who is not seated-in with chips was dealt in",
      3: "a seated-in player with chips who has been dealt in before (and kept chips) was left out",
      4: "a newcomer seated strictly between button and big blind was dealt in while still between them",
      5: "a seated-in player with chips missed more than three hands in a row",
      6: "a seated-in player with chips was left out although not strictly between the button and the big blind"}


def run(res, replay=None):
    return run_open(res, (2, 4), lambda c, s: None, CL, replay=replay)


def replay(res, path):
    return replay_open(res, path, run)

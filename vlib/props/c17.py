"""C17 - manager forwarding and isolation."""
import json

from ..flow import standard_flow

NCASES = {"quick": 64, "thorough": 1600}


def signature(case, step):
    return None


def describe(case, step, code):
    return {"history_index": case["index"], "tables": case["tables"], "failing_step": step,
            "code": {2: "generated-model-vs-implementation", 3: "specification-monitor"}.get(code, code),
            "observed": case["ops"][step]}


def stats(cases):
    meth = {}
    unknown = closed = eng_err = 0
    for c in cases:
        for o in c["ops"]:
            meth[o["method"]] = meth.get(o["method"], 0) + 1
            if not o["known"]:
                unknown += 1
            if o["eng_err"]:
                eng_err += 1
            if o["known"] and not o["present_after"]:
                closed += 1
    return {"calls_per_method": meth, "calls_on_unregistered_ids": unknown, "engine_errors_passed_through": eng_err,
            "tables_closed_or_released": closed,
            "tables_per_history": sorted({len(c["tables"]) for c in cases})}


def gen_obligations(builds):
    t = builds["translator"]
    return [("Gen_Manager.v regenerated from manager.go (translator recognises every method body)", t["ok"])]


def run(res, replay=None):
    return standard_flow(
        res, hx="c17", corr="C17_run", n=0 if replay else NCASES[res.tier], replay=replay,
        signature=signature, describe=describe, stats=stats, gen_obligations=gen_obligations, shard=8 if res.tier == 'quick' else 100,
        rule="histories of 30-70 manager calls over 2..9 real tables (every forwarding method at least once per history, "
             "unregistered and closed ids included); engines are recording proxies; distinct = distinct (method, table-known, engine-error) "
             "call sequences; non-trivial = history contains an engine error, an unregistered id and a close/release",
        nontrivial=lambda c: any(o["eng_err"] for o in c["ops"]) and any(not o["known"] for o in c["ops"]),
        key=lambda c: json.dumps([(o["method"], o["table"], o["raw"]) for o in c["ops"]]),
        assumptions=["the recording proxy sees every manager->engine call because the registry holds only proxies (verif hook VerifWrapTableEngine)",
                     "engine semantics is universally quantified in the theorems; the table of forwards is regenerated from manager.go on every run"])


def replay(res, path):
    return run(res, replay=path)

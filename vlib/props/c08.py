"""C08 - after each hand the table pauses or deals on; it never wedges."""
from .lifebase import run_life, replay_life, NH

CL = {1: "pause decision after the hand is not 'break level or fewer players with chips than the minimum'",
      2: "two seated-in players have chips but the next hand was set up for fewer than two",
      3: "everybody signalled (or the gate timed out) and two seated-in players have chips, yet no hand opened",
      4: "the level in force after UpdateBlind is not the level announced (a break that is dropped is a pause that never comes)"}


def run(res, replay=None):
    q = res.tier == "quick"
    plans = [("gen", None, NH[res.tier], 10 if q else 100, None), ("interval", "interval", 40 if q else 300, 10 if q else 100, None),
             # heads-up, one of the two busts in the first hand while newcomers sat down during it (on any free seat)
             ("bust", "bust_arrival", 30 if q else 200, 10 if q else 100, None)]
    return run_life(res, 4, CL, replay=replay, plans=plans)


def replay(res, path):
    return replay_life(res, path, run)

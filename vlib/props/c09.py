"""C09 - the open-game gate."""
import json
import os

from .. import core
from ..flow import standard_flow

NCASES = {"quick": 600, "thorough": 12000}


def signature(case, step):
    """Known-finding signatures for C09, evaluated on the failing history."""
    # a restore of a snapshot in which everybody is ready precedes the failing step
    for o in case["trace"][: step + 1]:
        op = o["op"]
        if op["kind"] == "restore" and op.get("parts") and all(p["ready"] for p in op["parts"]):
            return "restore-of-all-ready-snapshot"
    return None


def describe(case, step, code):
    o = case["trace"][step]
    return {"history_index": case["index"], "timeout_s": case["tmo"], "failing_step": step,
            "code": {1: "outside-guard", 2: "model-vs-implementation", 3: "specification-monitor"}[code],
            "observed": o, "ops": case["ops"]}


def run(res):
    return standard_flow(res, hx="c09", corr="C09_run", n=NCASES[res.tier], signature=signature, describe=describe, shard=75 if res.tier == 'quick' else 1000,
                         rule="histories of Setup/Ready(known, unknown, repeated)/Restore/Timeout ops on a real open_game_manager "
                              "(1 s timeouts run for real); distinct = distinct op sequences; non-trivial = at least one callback fired or one error returned",
                         nontrivial=lambda c: any(o["out"] != "none" for o in c.get("trace") or []),
                         key=lambda c: json.dumps([c["tmo"], c["ops"]], sort_keys=True),
                         stats=stats,
                         assumptions=["syncsaga.ReadyGroup and timebank are abstracted as atomic events (their goroutines run to quiescence inside a step)",
                                      "participant maps are injective on indexes (guard valid_op); restores of pending snapshots only in the theorem",
                                      "callback observation window 40 ms per step (mismatches are re-run 5x slower before they are believed)"])


def stats(cases):
    kinds = {}
    outs = {}
    sizes = {}
    for c in cases:
        for o in c.get("trace") or []:
            kinds[o["op"]["kind"]] = kinds.get(o["op"]["kind"], 0) + 1
            outs[o["out"]] = outs.get(o["out"], 0) + 1
            if o["op"]["kind"] == "setup":
                n = len(o["op"].get("parts") or [])
                sizes[n] = sizes.get(n, 0) + 1
    return {"op_kinds": kinds, "outcomes": outs, "setup_sizes": sizes,
            "histories_with_timeout": sum(1 for c in cases if c["tmo"] > 0)}


def replay(res, path):
    return standard_flow(res, hx="c09", corr="C09_run", n=0, signature=signature, describe=describe, replay=path,
                         rule="replay", nontrivial=lambda c: True, key=lambda c: json.dumps(c["ops"]), stats=stats, assumptions=[])

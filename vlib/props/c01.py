"""C01 - chips are conserved by hands, top-ups and departures."""
import json

from ..flow import standard_flow

NH = {"quick": 96, "thorough": 4000}


def signature(case, step):
    return None


def describe(case, step, code):
    idx = step % 1000 if code == 3 else step
    d = {"code": {2: "model-vs-implementation", 3: "C01 specification monitor", 5: "hand-result contract (pokerface side)"}.get(code, code),
         "history_index": case["index"], "failing_event_index": idx,
         "config": {k: case[k] for k in ("seed", "max", "rule", "mode", "ante", "dealer_blind", "sb", "bb")}}
    if code == 3:
        d["failing_clause"] = {1: "bankrolls of the seated players do not sum to brought-in minus taken-out between hands",
                               2: "a settled hand changed a bankroll by something else than that player's result"}.get(step // 1000)
    ev = case["events"]
    d["events_up_to_failure"] = ev[max(0, idx - 6): idx + 1]
    return d


def stats(cases):
    kinds, phases, rules = {}, {}, {}
    hands = sidepots = busts = 0
    for c in cases:
        rules[c["rule"]] = rules.get(c["rule"], 0) + 1
        for e in c["events"]:
            kinds[e["kind"]] = kinds.get(e["kind"], 0) + 1
            if e["kind"] in ("in", "topup", "out") and not e["between_hands"]:
                ph = (e.get("phase") or "?").split("/")[0]
                phases[ph] = phases.get(ph, 0) + 1
            if e["kind"] == "settle":
                hands += 1
                if any(r["final"] == 0 for r in e["results"]):
                    busts += 1
                if len({r["changed"] for r in e["results"] if r["changed"] > 0}) > 1:
                    sidepots += 1
    return {"event_kinds": kinds, "membership_events_during_a_hand_by_phase": phases, "rules": rules, "hands_settled": hands,
            "hands_with_a_bust": busts, "hands_with_more_than_one_winner_amount": sidepots,
            "histories_wedged_or_hung": sum(1 for c in cases if c.get("note"))}


def run(res, replay=None):
    return standard_flow(
        res, hx="c01", corr="C01_run", n=0 if replay else NH[res.tier], shard=8 if res.tier == "quick" else 100, replay=replay,
        signature=signature, describe=describe, stats=stats, relevant=lambda c, code, step: code in (2, 3, 5),
        rule="real tables (2..10 seats, default/short-deck/omaha, ct/mtt/cash, ante and no-SB structures, stacks from 1 chip) played for "
             "3..8 hands with a random betting policy (folds, all-ins, side pots); buy-ins, re-buys, add-ons and departures injected "
             "between and during hands; one event per chip movement; distinct = distinct event sequences; non-trivial = at least one "
             "settled hand and one membership event during a hand",
        nontrivial=lambda c: any(e["kind"] == "settle" for e in c["events"]) and any(e["kind"] in ("in", "topup", "out") and not e["between_hands"] for e in c["events"]),
        key=lambda c: json.dumps(c["events"], sort_keys=True),
        unit=lambda c: {k: c[k] for k in ("index", "seed", "max", "rule", "mode", "ante", "dealer_blind", "sb", "bb", "hands")},
        assumptions=["pokerface's settlement satisfies result_ok (entry i has index i, changes sum to zero): evaluated on every observed hand, a breach is reported as a violation with code 5",
                     "a dealt-in player leaving during a hand is generated only in the dedicated isolated stream (see DESIGN.md, F9)"])


def replay(res, path):
    data = json.load(open(path))
    rc = data.get("replay_case")
    tmp = path + ".case.json"
    json.dump([{k: rc[k] for k in ("index", "seed", "max", "rule", "mode", "ante", "dealer_blind", "sb", "bb", "hands")}], open(tmp, "w"))
    return run(res, replay=tmp)

"""C11 - a hand advances exactly when everyone asked has answered, and always finishes."""
from .handbase import run_hand, replay_hand

CL = {(7, 1): "a collection point did not ask exactly the players it should (all for readiness/ante, blind positions for blinds)",
      (7, 2): "the hand moved on before the last awaited answer, or did not move on with it",
      (7, 3): "a closed betting round was not followed by the next step without an external trigger",
      (7, 4): "with one answer withheld the hand moved early, or the response timeout did not move it on",
      (7, 5): "a hand in which everybody answered settled without a result entry for each participant",
      (7, 6): "the hand could not go on (nobody asked to act, an unexpected hand state, or no quiescent point) although nothing was made to fail"}


def run(res, replay=None):
    q = res.tier == "quick"
    plans = [("gen", None, 70 if q else 1500, 12 if q else 120, None),
             ("withhold", "withhold", 6 if q else 60, 6 if q else 30, None)]
    return run_hand(res, (7,), CL, replay=replay, plans=plans,
                    extra_assumptions=["'always finishes' relies on the hand engine closing every betting round after finitely many actions "
                                       "(outside this repository): decided on observed hands, not proved (partial)"])


def replay(res, path):
    return replay_hand(res, path, run)

"""Shared by C07, C08, C12: the life-cycle harness (hx life / Corr/Life_run.v)."""
import json

from ..flow import standard_flow

NH = {"quick": 150, "thorough": 1200}


def stats(cases):
    ops, statuses = {}, {}
    hands = wedged = opens = pauses = 0
    for c in cases:
        for s in c.get("steps") or []:
            ops[s["op"]] = ops.get(s["op"], 0) + 1
            statuses[s["post"]["status"]] = statuses.get(s["post"]["status"], 0) + 1
            if s["hand_closed"]:
                hands += 1
                if s["post"]["status"] == "table_pausing":
                    pauses += 1
            if s["wedged"]:
                wedged += 1
            if s["post"]["gc"] > s["pre"]["gc"]:
                opens += 1
    return {"macro_steps_by_op": ops, "status_after_step": statuses, "hands_settled": hands, "hands_opened": opens,
            "pauses_after_a_hand": pauses, "steps_not_quiescent_in_time": wedged,
            "histories_starting_on_break_or_unset": sum(1 for c in cases if c["init_blind"]["level"] <= 0)}


def run_life(res, code, clause_names, replay=None, signature=lambda c, s: None, plans=None):
    def relevant(case, c, step):
        return c in (2, code)

    def describe(case, step, c):
        idx = step if c == 2 else step // 10
        d = {"code": {2: "model-vs-implementation", 3: "C07 monitor", 4: "C08 monitor", 5: "C12 monitor"}.get(c, c),
             "history_index": case["index"], "failing_step": idx,
             "config": {k: case[k] for k in ("seed", "max", "mode", "rule", "min", "init_blind", "join_at_create", "directed", "continue_interval") if k in case}}
        if c != 2:
            d["failing_clause"] = clause_names.get(step % 10, step % 10)
        d["steps_up_to_failure"] = case["steps"][max(0, idx - 3): idx + 1]
        return d

    return standard_flow(
        res, hx="life", corr="Life_run", n=0 if replay else NH[res.tier], shard=10 if res.tier == "quick" else 100, replay=replay, plans=None if replay else plans,
        signature=signature, describe=describe, stats=stats, relevant=relevant,
        unit=lambda c: {k: c[k] for k in ("index", "seed", "max", "mode", "rule", "min", "init_blind", "join_at_create", "directed", "continue_interval") if k in c},
        rule="real tables (2..8 seats, ct/mtt, minimum 2 or 3, starting levels incl. break and unset) driven through up to 90 macro steps: "
             "start, signal / withhold settlement-finished (real 2 s gate timeout), play to the next quiescent point, blind updates (also "
             "break / unset levels, also issued from INSIDE the backend's CreateGame), pause, close, release, external set-up, arrivals; "
             "every notification between quiescent points is kept; distinct = distinct step sequences; non-trivial = at least one hand "
             "settled and one external operation",
        nontrivial=lambda c: c.get("directed") == "create_only" or any(s["hand_closed"] for s in c.get("steps") or []) and any(s["op"] in ("update_blind", "pause", "close", "release", "reserve", "setup", "timeout") for s in c["steps"]),
        key=lambda c: json.dumps([(s["op"], s["post"]["status"], s["post"]["gc"]) for s in c.get("steps") or []] + [c.get("mode"), c.get("join_at_create"), c.get("status_after_create"), c["init_blind"]["level"]]),
        assumptions=["GameContinueInterval is 0 or 1 s; with 1 s a blind update (also to a break), a re-buy of a busted player or a newcomer is injected inside the interval, released by the settlement notification",
                     "player counts (with chips / seated-in with chips) and 'the hand reached settlement' enter the model as observed oracle values",
                     "that the seat manager can move with two live players is C04's subject (findings F7/F8 apply)"])


def replay_life(res, path, run):
    data = json.load(open(path))
    rc = data["replay_case"]
    tmp = path + ".case.json"
    json.dump([{k: rc[k] for k in ("index", "seed", "max", "mode", "rule", "min", "init_blind", "join_at_create", "directed", "continue_interval") if k in rc}], open(tmp, "w"))
    return run(res, replay=tmp)

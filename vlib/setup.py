"""setup_cmd: build everything from files on disk (offline): translator -> coq/Gen, full Coq
.vo build, Go harness."""
import sys

from . import core


def main():
    b = core.build_all()
    ok = b["translator"]["ok"] and b["coq"]["ok"] and b["harness"]["ok"]
    core.log("translator:", b["translator"]["ok"], b["translator"].get("changed"))
    core.log("coq: ok=%s wall=%.1fs failed=%s" % (b["coq"]["ok"], b["coq"]["wall"], b["coq"]["failed"]))
    if not b["coq"]["ok"]:
        core.log(b["coq"]["log"])
    core.log("harness:", b["harness"]["ok"], b["harness"]["log"][-2000:])
    bad = core.scan_forbidden()
    if bad:
        core.log("forbidden declarations:", bad)
        ok = False
    return 0 if ok else 1


if __name__ == "__main__":
    sys.exit(main())
